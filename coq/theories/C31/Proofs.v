(** C31 — proofs: flit count, reassembly invariant. *)
From Akita Require Import Lib.Base C31.Model.
Local Open Scope Z_scope.

(** * Flit count *)

Definition is_ceil_div (a b q : Z) : Prop := (q - 1) * b < a <= q * b.

Lemma overhead_ceil sp b : 0 <= b ->
  is_ceil_div (b * Z.of_N (s_ov_num sp)) (2 ^ Z.of_N (s_ov_exp sp)) (overhead_bytes sp b) /\
  0 <= overhead_bytes sp b.
Proof.
  intro Hb. unfold is_ceil_div, overhead_bytes.
  assert (Hd : 0 < 2 ^ Z.of_N (s_ov_exp sp)) by (apply Z.pow_pos_nonneg; lia).
  set (d := 2 ^ Z.of_N (s_ov_exp sp)) in *. set (a := b * Z.of_N (s_ov_num sp)).
  assert (Ha : 0 <= a) by (unfold a; nia).
  pose proof (Z.div_mod (a + d - 1) d ltac:(lia)) as E.
  pose proof (Z.mod_pos_bound (a + d - 1) d Hd) as B.
  split; [split; nia|]. apply Z.div_pos; lia.
Qed.

Lemma num_flits_pos_bytes sp b : 1 <= s_flit sp -> 0 < b ->
  exists n, num_flits sp b = Some n /\ 1 <= n /\ is_ceil_div (encoded_bytes sp b) (s_flit sp) n.
Proof.
  intros Hf Hb. unfold num_flits.
  assert (E0 : (0 <? b) = true) by lia. rewrite E0.
  assert (E1 : (s_flit sp =? 0) = false) by lia. rewrite E1.
  destruct (overhead_ceil sp b ltac:(lia)) as [_ Ho].
  assert (He : 1 <= encoded_bytes sp b) by (unfold encoded_bytes; lia).
  rewrite Z.quot_div_nonneg by lia.
  set (e := encoded_bytes sp b) in *. set (fl := s_flit sp) in *.
  pose proof (Z.div_mod (e - 1) fl ltac:(lia)) as E.
  pose proof (Z.mod_pos_bound (e - 1) fl ltac:(lia)) as B.
  assert (Hq : 0 <= (e - 1) / fl) by (apply Z.div_pos; lia).
  assert (E2 : ((e - 1) / fl + 1 <? 0) = false) by lia. rewrite E2.
  exists ((e - 1) / fl + 1). split; [reflexivity|]. split; [lia|]. unfold is_ceil_div. nia.
Qed.

Lemma num_flits_nonpos_bytes sp b : b <= 0 -> num_flits sp b = Some 1.
Proof. intro H. unfold num_flits. assert (E : (0 <? b) = false) by lia. rewrite E. reflexivity. Qed.

Lemma copy_meta_id m : copy_meta m = m.
Proof. destruct m; reflexivity. Qed.

Lemma msg_to_flits_spec sp m n : num_flits sp (m_bytes m) = Some n -> 0 <= n ->
  exists fs, msg_to_flits sp m = Some fs /\ Z.of_nat (length fs) = n /\
    forall i, (i < length fs)%nat ->
      nth_error fs i = Some (mk_flit (s_netport sp) (s_swdst sp) (Z.of_nat i) n m).
Proof.
  intros Hn Hpos. unfold msg_to_flits. rewrite Hn. eexists. split; [reflexivity|].
  rewrite map_length, seq_length. split; [lia|].
  intros i Hi. rewrite nth_error_map. rewrite nth_error_nth' with (d := O) by (rewrite seq_length; exact Hi).
  rewrite seq_nth by exact Hi. cbn [option_map]. rewrite copy_meta_id. reflexivity.
Qed.

(** * Reassembly *)

(** the incoming middleware seen as a machine over two events; [out] is the
    ghost log of everything ever moved to AssembledMsgs, in order *)
Inductive ev := Arrive (f : flit) | Assemble.

Record gstate := mk_g { g_asm : list entry; g_out : list meta }.

Definition gstep (s : gstate) (e : ev) : gstate :=
  match e with
  | Arrive f => mk_g (recv_flit (g_asm s) f) (g_out s)
  | Assemble => mk_g (filter (fun e => negb (complete e)) (g_asm s))
                     (g_out s ++ map e_meta (filter complete (g_asm s)))
  end.

Definition grun (es : list ev) : gstate := fold_left gstep es (mk_g [] []).

Fixpoint arrivals (es : list ev) : list flit :=
  match es with
  | [] => []
  | Arrive f :: r => f :: arrivals r
  | Assemble :: r => arrivals r
  end.

Definition fid (f : flit) : N := m_id (f_msg f).

Fixpoint count (A : list flit) (id : N) : Z :=
  match A with
  | [] => 0
  | f :: r => (if (fid f =? id)%N then 1 else 0) + count r id
  end.

Lemma count_app A B id : count (A ++ B) id = count A id + count B id.
Proof. induction A as [|f A IH]; cbn [count app]; [lia|]. rewrite IH. lia. Qed.

Lemma count_nonneg A id : 0 <= count A id.
Proof. induction A as [|f A IH]; cbn [count]; [lia|]. destruct (fid f =? id)%N; lia. Qed.

Lemma NoDup_app_snoc {A} (l : list A) x : NoDup l -> ~ In x l -> NoDup (l ++ [x]).
Proof.
  intros Hl Hx. induction l as [|y l IH]; cbn [app]; [constructor; [intros []|constructor]|].
  inversion Hl as [|? ? Hy Hl']; subst. constructor.
  - intro Hin. apply in_app_or in Hin. destruct Hin as [Hin|[Hin|[]]]; [auto|].
    apply Hx. left. symmetry. exact Hin.
  - apply IH; auto. intro H. apply Hx. right. exact H.
Qed.

Lemma NoDup_app_intro {A} (a b : list A) :
  NoDup a -> NoDup b -> (forall x, In x a -> In x b -> False) -> NoDup (a ++ b).
Proof.
  intros Ha Hb Hd. induction a as [|x a IH]; cbn [app]; [exact Hb|].
  inversion Ha as [|? ? Hx Ha']; subst. constructor.
  - intro Hin. apply in_app_or in Hin. destruct Hin as [Hin|Hin]; [auto|].
    apply (Hd x); [left; reflexivity|exact Hin].
  - apply IH; auto. intros y Hy1 Hy2. apply (Hd y); [right; exact Hy1|exact Hy2].
Qed.

Lemma NoDup_app_l {A} (a b : list A) : NoDup (a ++ b) -> NoDup a.
Proof.
  induction a as [|x a IH]; cbn [app]; intro H; [constructor|].
  inversion H as [|? ? Hx H']; subst. constructor; [|apply IH; exact H'].
  intro Hin. apply Hx. apply in_or_app. left. exact Hin.
Qed.

Section Reassembly.
  Variable ms : list meta.                 (* the messages in flight; unique IDs *)
  Variable nf : meta -> Z.                 (* their flit counts *)
  Hypothesis ids_unique : NoDup (map m_id ms).
  Hypothesis nf_pos : forall m, In m ms -> 1 <= nf m.

  (** every arriving flit is flit [seq] of [num = nf m] of some message [m] of
      the set, and no flit arrives twice — but in ANY order / interleaving *)
  Definition flit_ok (f : flit) : Prop :=
    In (f_msg f) ms /\ f_num f = nf (f_msg f) /\ 0 <= f_seq f < f_num f.

  Definition wf_arrivals (A : list flit) : Prop :=
    Forall flit_ok A /\ NoDup (map (fun f => (fid f, f_seq f)) A).

  Lemma same_id_same_msg m m' : In m ms -> In m' ms -> m_id m = m_id m' -> m = m'.
  Proof.
    intros H1 H2 E. clear nf_pos. induction ms as [|x l IH]; [destruct H1|].
    cbn [map] in ids_unique. inversion ids_unique as [|? ? Hnin Hnd]; subst.
    destruct H1 as [->|H1], H2 as [->|H2]; try reflexivity.
    - exfalso. apply Hnin. rewrite E. apply in_map. exact H2.
    - exfalso. apply Hnin. rewrite <- E. apply in_map. exact H1.
    - apply IH; auto.
  Qed.

  (** pigeonhole: at most [nf m] distinct flits of [m] can ever arrive *)
  Lemma count_le_nf A m : wf_arrivals A -> In m ms -> count A (m_id m) <= nf m.
  Proof.
    intros [Hok Hnd] Hm.
    set (sel := filter (fun f => (fid f =? m_id m)%N) A).
    assert (Hc : count A (m_id m) = Z.of_nat (length sel)).
    { subst sel. clear Hok Hnd. induction A as [|f A IH]; [reflexivity|].
      cbn [count filter]. destruct (fid f =? m_id m)%N; cbn [length]; lia. }
    assert (Hnd' : NoDup (map (fun f => Z.to_nat (f_seq f)) sel)).
    { subst sel. clear Hc. induction A as [|f A IH]; cbn [filter map]; [constructor|].
      inversion Hnd as [|? ? Hnin Hnd2]; subst. inversion Hok as [|? ? Hf Hok2]; subst.
      destruct (fid f =? m_id m)%N eqn:E; [|apply IH; auto].
      cbn [map]. constructor; [|apply IH; auto].
      intro Hin. apply in_map_iff in Hin. destruct Hin as [g [Hg Hgin]].
      apply filter_In in Hgin. destruct Hgin as [HgA Hgid].
      apply Hnin. apply in_map_iff. exists g. split; [|exact HgA].
      apply N.eqb_eq in E. apply N.eqb_eq in Hgid.
      rewrite Forall_forall in Hok2. pose proof (Hok2 g HgA) as [_ [_ Hgs]].
      destruct Hf as [_ [_ Hfs]].
      cbn beta in Hg. f_equal; [congruence|]. lia. }
    assert (Hincl : incl (map (fun f => Z.to_nat (f_seq f)) sel) (seq 0 (Z.to_nat (nf m)))).
    { intros x Hx. apply in_map_iff in Hx. destruct Hx as [g [Hg Hgin]].
      unfold sel in Hgin. apply filter_In in Hgin. destruct Hgin as [HgA Hgid].
      rewrite Forall_forall in Hok. destruct (Hok g HgA) as [Hin [Hnum Hseq]].
      apply N.eqb_eq in Hgid.
      assert (f_msg g = m) by (apply same_id_same_msg; auto). subst x.
      apply in_seq. rewrite Hnum in Hseq. rewrite H in Hseq. lia. }
    pose proof (NoDup_incl_length Hnd' Hincl) as L.
    rewrite map_length, seq_length in L. pose proof (nf_pos m Hm). lia.
  Qed.

  Definition has_entry (l : list entry) (id : N) : Prop := In id (map e_id l).

  (** the invariant *)
  Record Inv (A : list flit) (s : gstate) : Prop := {
    inv_nodup : NoDup (map e_id (g_asm s));
    inv_entry : forall e, In e (g_asm s) ->
       exists m, In m ms /\ e_id e = m_id m /\ e_meta e = m /\ e_req e = nf m /\
                 e_arr e = count A (m_id m) /\ 1 <= e_arr e;
    inv_out_nodup : NoDup (map m_id (g_out s));
    inv_out : forall m, In m (g_out s) ->
       In m ms /\ count A (m_id m) = nf m /\ ~ has_entry (g_asm s) (m_id m);
    inv_seen : forall m, In m ms -> 0 < count A (m_id m) ->
       has_entry (g_asm s) (m_id m) \/ In m (g_out s) }.

  Lemma inv_init : Inv [] (mk_g [] []).
  Proof.
    constructor; cbn [g_asm g_out map count].
    - constructor.
    - intros e [].
    - constructor.
    - intros m [].
    - intros m _ H. lia.
  Qed.

  Lemma bump_some l id l' : bump l id = Some l' ->
    map e_id l' = map e_id l /\ In id (map e_id l) /\
    exists a e b, l = a ++ e :: b /\ e_id e = id /\ ~ In id (map e_id a) /\
                  l' = a ++ mk_entry (e_id e) (e_meta e) (e_req e) (e_arr e + 1) :: b.
  Proof.
    revert l'. induction l as [|e r IH]; intros l' H; [discriminate|].
    cbn [bump] in H. destruct (e_id e =? id)%N eqn:E.
    - inversion H; subst. apply N.eqb_eq in E. cbn [map e_id]. split; [reflexivity|].
      split; [left; exact E|]. exists [], e, r. cbn [app map]. auto.
    - destruct (bump r id) as [r'|] eqn:B; [|discriminate]. inversion H; subst.
      destruct (IH r' eq_refl) as [Hm [Hin [a [x [b [Hr [Hx [Hna Hr']]]]]]]].
      cbn [map]. split; [f_equal; exact Hm|]. split; [right; exact Hin|].
      exists (e :: a), x, b. subst r r'. cbn [app map]. repeat split; auto.
      intros [Hh|Hh]; [apply N.eqb_neq in E; auto|auto].
  Qed.

  Lemma bump_none l id : bump l id = None -> ~ In id (map e_id l).
  Proof.
    induction l as [|e r IH]; intro H; [intros []|].
    cbn [bump] in H. destruct (e_id e =? id)%N eqn:E; [discriminate|].
    destruct (bump r id) eqn:B; [discriminate|]. cbn [map]. intros [Hh|Hh].
    - apply N.eqb_neq in E. auto.
    - apply IH; auto.
  Qed.

  Lemma count_snoc A f id : count (A ++ [f]) id = count A id + (if (fid f =? id)%N then 1 else 0).
  Proof. rewrite count_app. cbn [count]. lia. Qed.

  (** one arrival preserves the invariant *)
  Lemma inv_arrive A s f : wf_arrivals (A ++ [f]) -> Inv A s ->
    Inv (A ++ [f]) (gstep s (Arrive f)).
  Proof.
    intros Hwf I. destruct Hwf as [Hok Hnd]. pose proof Hok as Hok'.
    rewrite Forall_app in Hok'. destruct Hok' as [HokA Hf]. inversion Hf as [|? ? Hfok _]; subst.
    destruct Hfok as [Hm [Hnum Hseq]]. set (m := f_msg f) in *.
    assert (Hle : count (A ++ [f]) (m_id m) <= nf m) by (apply count_le_nf; [split; auto|exact Hm]).
    rewrite count_snoc in Hle. assert (Eid : (fid f =? m_id m)%N = true) by (apply N.eqb_eq; reflexivity).
    rewrite Eid in Hle.
    destruct I as [I1 I2 I3 I4 I5]. cbn [gstep g_asm g_out]. unfold recv_flit. fold m.
    destruct (bump (g_asm s) (m_id m)) as [l'|] eqn:B.
    - destruct (bump_some _ _ _ B) as [Hmap [Hin [a [e [b [Hl [He [Hna Hl']]]]]]]].
      constructor; cbn [g_asm g_out].
      + rewrite Hmap. exact I1.
      + intros x Hx. rewrite Hl' in Hx. apply in_app_or in Hx.
        assert (Hcase : In x (g_asm s) /\ e_id x <> m_id m \/
                        x = mk_entry (e_id e) (e_meta e) (e_req e) (e_arr e + 1)).
        { rewrite Hl in I1. rewrite map_app in I1. cbn [map] in I1. apply NoDup_remove_2 in I1.
          destruct Hx as [Hx|[Hx|Hx]].
          - left. split; [rewrite Hl; apply in_or_app; left; exact Hx|].
            intro Ex. apply Hna. rewrite <- Ex. apply in_map. exact Hx.
          - right. symmetry. exact Hx.
          - left. split; [rewrite Hl; apply in_or_app; right; right; exact Hx|].
            intro Ex. apply I1. apply in_or_app. right. rewrite He, <- Ex. apply in_map. exact Hx. }
        destruct Hcase as [[HxS Hne]| ->].
        * destruct (I2 x HxS) as [mx [H1 [H2 [H3 [H4 [H5 H6]]]]]].
          exists mx. repeat split; auto. rewrite count_snoc.
          assert (E : (fid f =? m_id mx)%N = false) by (apply N.eqb_neq; unfold fid; fold m; congruence).
          rewrite E. lia.
        * assert (HeS : In e (g_asm s)) by (rewrite Hl; apply in_or_app; right; left; reflexivity).
          destruct (I2 e HeS) as [mx [H1 [H2 [H3 [H4 [H5 H6]]]]]].
          assert (Emx : mx = m) by (apply same_id_same_msg; auto; congruence).
          rewrite Emx in *. clear Emx.
          exists m. cbn [e_id e_meta e_req e_arr].
          split; [exact Hm|]. split; [exact H2|]. split; [exact H3|]. split; [exact H4|].
          split; [rewrite count_snoc, Eid; lia|lia].
      + exact I3.
      + intros x Hx. destruct (I4 x Hx) as [H1 [H2 H3]].
        assert (Hxm : m_id x <> m_id m).
        { intro E. apply H3. unfold has_entry. rewrite E. exact Hin. }
        repeat split; auto.
        * rewrite count_snoc. assert (E : (fid f =? m_id x)%N = false) by (apply N.eqb_neq; unfold fid; fold m; congruence).
          rewrite E. lia.
        * unfold has_entry. rewrite Hmap. exact H3.
      + intros x Hx Hc. unfold has_entry. rewrite Hmap.
        destruct (N.eq_dec (m_id x) (m_id m)) as [E|E].
        * left. rewrite E. exact Hin.
        * apply I5; auto. rewrite count_snoc in Hc.
          assert (E' : (fid f =? m_id x)%N = false) by (apply N.eqb_neq; unfold fid; fold m; congruence).
          rewrite E' in Hc. lia.
    - pose proof (bump_none _ _ B) as Hno.
      assert (Hc0 : count A (m_id m) = 0).
      { pose proof (count_nonneg A (m_id m)) as Hnn.
        destruct (Z.eq_dec (count A (m_id m)) 0) as [E|E]; [exact E|].
        destruct (I5 m Hm ltac:(lia)) as [H|H]; [contradiction|].
        destruct (I4 m H) as [_ [Hc _]]. lia. }
      constructor; cbn [g_asm g_out].
      + rewrite map_app. cbn [map e_id]. apply NoDup_app_snoc; auto.
      + intros x Hx. apply in_app_or in Hx. destruct Hx as [Hx|[<- |[]]].
        * destruct (I2 x Hx) as [mx [H1 [H2 [H3 [H4 [H5 H6]]]]]].
          exists mx. repeat split; auto. rewrite count_snoc.
          assert (E : (fid f =? m_id mx)%N = false).
          { apply N.eqb_neq. unfold fid. fold m. intro E. apply Hno. rewrite E, <- H2. apply in_map. exact Hx. }
          rewrite E. lia.
        * exists m. cbn [e_id e_meta e_req e_arr]. rewrite copy_meta_id.
          split; [exact Hm|]. split; [reflexivity|]. split; [reflexivity|]. split; [exact Hnum|].
          split; [rewrite count_snoc, Eid; lia|lia].
      + exact I3.
      + intros x Hx. destruct (I4 x Hx) as [H1 [H2 H3]].
        assert (Hxm : m_id x <> m_id m).
        { intro E. rewrite E in H2. pose proof (nf_pos x H1). assert (x = m) by (apply same_id_same_msg; auto). subst x. lia. }
        repeat split; auto.
        * rewrite count_snoc. assert (E : (fid f =? m_id x)%N = false) by (apply N.eqb_neq; unfold fid; fold m; congruence).
          rewrite E. lia.
        * unfold has_entry. rewrite map_app. cbn [map e_id]. intro Hin. apply in_app_or in Hin.
          destruct Hin as [Hin|[Hin|[]]]; [apply H3; exact Hin|congruence].
      + intros x Hx Hc. unfold has_entry. rewrite map_app. cbn [map e_id].
        destruct (N.eq_dec (m_id x) (m_id m)) as [E|E].
        * left. apply in_or_app. right. left. symmetry. exact E.
        * rewrite count_snoc in Hc.
          assert (E' : (fid f =? m_id x)%N = false) by (apply N.eqb_neq; unfold fid; fold m; congruence).
          rewrite E' in Hc. destruct (I5 x Hx ltac:(lia)) as [H|H]; [left; apply in_or_app; left; exact H|right; exact H].
  Qed.

  Lemma NoDup_map_filter {X Y} (g : X -> Y) (p : X -> bool) l :
    NoDup (map g l) -> NoDup (map g (filter p l)).
  Proof.
    induction l as [|x l IH]; cbn [map filter]; intro H; [constructor|].
    inversion H as [|? ? Hn Hl]; subst. destruct (p x); [|apply IH; exact Hl].
    cbn [map]. constructor; [|apply IH; exact Hl].
    intro Hin. apply Hn. apply in_map_iff in Hin. destruct Hin as [y [Hy Hyin]].
    apply filter_In in Hyin. apply in_map_iff. exists y. tauto.
  Qed.

  Lemma complete_iff e : complete e = true <-> e_req e <= e_arr e.
  Proof. unfold complete. destruct (e_arr e <? e_req e) eqn:E; cbn [negb]; split; intro H; try lia; discriminate. Qed.

  (** an entry is the only one with its ID *)
  Lemma entry_unique l e e' : NoDup (map e_id l) -> In e l -> In e' l -> e_id e = e_id e' -> e = e'.
  Proof.
    induction l as [|x l IH]; intros Hnd H1 H2 E; [destruct H1|].
    cbn [map] in Hnd. inversion Hnd as [|? ? Hn Hl]; subst.
    destruct H1 as [->|H1], H2 as [->|H2]; try reflexivity.
    - exfalso. apply Hn. rewrite E. apply in_map. exact H2.
    - exfalso. apply Hn. rewrite <- E. apply in_map. exact H1.
    - apply IH; auto.
  Qed.

  Lemma inv_assemble A s : wf_arrivals A -> Inv A s -> Inv A (gstep s Assemble).
  Proof.
    intros Hwf [I1 I2 I3 I4 I5]. cbn [gstep].
    assert (Hnew : forall m, In m (map e_meta (filter complete (g_asm s))) ->
              exists e, In e (g_asm s) /\ complete e = true /\ e_meta e = m /\ In m ms /\
                        e_id e = m_id m /\ count A (m_id m) = nf m).
    { intros m Hin. apply in_map_iff in Hin. destruct Hin as [e [He Hein]].
      apply filter_In in Hein. destruct Hein as [HeS Hc].
      destruct (I2 e HeS) as [mx [H1 [H2 [H3 [H4 [H5 H6]]]]]].
      assert (Emx : mx = m) by congruence. rewrite Emx in *. clear Emx.
      exists e. repeat split; auto.
      apply complete_iff in Hc. pose proof (count_le_nf A m Hwf H1). lia. }
    constructor; cbn [g_asm g_out].
    - apply NoDup_map_filter. exact I1.
    - intros e He. apply filter_In in He. destruct He as [He _]. apply I2. exact He.
    - rewrite map_app. apply NoDup_app_intro.
      + exact I3.
      + assert (E : map m_id (map e_meta (filter complete (g_asm s))) = map e_id (filter complete (g_asm s))).
        { rewrite map_map. apply map_ext_in. intros e He. apply filter_In in He. destruct He as [He _].
          destruct (I2 e He) as [mx [H1 [H2 [H3 _]]]]. congruence. }
        rewrite E. apply NoDup_map_filter. exact I1.
      + intros id Hin1 Hin2. apply in_map_iff in Hin1. destruct Hin1 as [m [Hid Hm]].
        apply in_map_iff in Hin2. destruct Hin2 as [m' [Hid' Hm']].
        destruct (Hnew m' Hm') as [e [HeS [_ [_ [_ [Heid _]]]]]].
        destruct (I4 m Hm) as [_ [_ Hno]]. apply Hno. unfold has_entry.
        rewrite Hid, <- Hid', <- Heid. apply in_map. exact HeS.
    - intros m Hin. apply in_app_or in Hin. destruct Hin as [Hin|Hin].
      + destruct (I4 m Hin) as [H1 [H2 H3]]. repeat split; auto.
        intro Hh. apply H3. unfold has_entry in *. apply in_map_iff in Hh.
        destruct Hh as [e [He Hein]]. apply filter_In in Hein. rewrite <- He. apply in_map. tauto.
      + destruct (Hnew m Hin) as [e [HeS [Hc [Hmeta [Hms [Heid Hcnt]]]]]].
        repeat split; auto. intro Hh. unfold has_entry in Hh. apply in_map_iff in Hh.
        destruct Hh as [e' [He' Hein']]. apply filter_In in Hein'. destruct Hein' as [He'S Hnc].
        assert (e' = e) by (apply (entry_unique (g_asm s)); auto; congruence). subst e'.
        rewrite Hc in Hnc. discriminate.
    - intros m Hm Hc. destruct (I5 m Hm Hc) as [Hh|Hout].
      + unfold has_entry in Hh. apply in_map_iff in Hh. destruct Hh as [e [He HeS]].
        destruct (complete e) eqn:Ec.
        * right. apply in_or_app. right. apply in_map_iff. exists e. split.
          -- destruct (I2 e HeS) as [mx [H1 [H2 [H3 _]]]]. rewrite H3.
             apply same_id_same_msg; auto. congruence.
          -- apply filter_In. auto.
        * left. unfold has_entry. rewrite <- He. apply in_map. apply filter_In. rewrite Ec. auto.
      + right. apply in_or_app. left. exact Hout.
  Qed.

  Lemma arrivals_app es es' : arrivals (es ++ es') = arrivals es ++ arrivals es'.
  Proof. induction es as [|[f|] es IH]; cbn [arrivals app]; [reflexivity| |]; rewrite IH; reflexivity. Qed.

  Lemma grun_snoc es e : grun (es ++ [e]) = gstep (grun es) e.
  Proof. unfold grun. rewrite fold_left_app. reflexivity. Qed.

  Lemma wf_arrivals_prefix A B : wf_arrivals (A ++ B) -> wf_arrivals A.
  Proof.
    intros [H1 H2]. split.
    - apply Forall_app in H1. tauto.
    - rewrite map_app in H2. apply NoDup_app_l in H2. exact H2.
  Qed.

  (** the invariant holds after every event sequence *)
  Lemma inv_run es : wf_arrivals (arrivals es) -> Inv (arrivals es) (grun es).
  Proof.
    induction es as [|e es IH] using rev_ind; intro Hwf; [exact inv_init|].
    rewrite grun_snoc. rewrite arrivals_app in *. destruct e as [f|]; cbn [arrivals] in *.
    - apply inv_arrive; [exact Hwf|]. apply IH. eapply wf_arrivals_prefix. exact Hwf.
    - rewrite app_nil_r in *. apply inv_assemble; auto.
  Qed.

  (** ** the statements *)

  (** a message is handed over only after ALL its flits have arrived, and what is
      handed over is exactly the sent metadata *)
  Lemma out_only_complete es m : wf_arrivals (arrivals es) -> In m (g_out (grun es)) ->
    In m ms /\ count (arrivals es) (m_id m) = nf m.
  Proof. intros Hwf Hin. destruct (inv_out _ _ (inv_run es Hwf) m Hin) as [H1 [H2 _]]. auto. Qed.

  (** ... at most once *)
  Lemma out_once es : wf_arrivals (arrivals es) -> NoDup (map m_id (g_out (grun es))).
  Proof. intro Hwf. exact (inv_out_nodup _ _ (inv_run es Hwf)). Qed.

  (** ... and it IS handed over by the first assemble pass after its last flit *)
  Lemma complete_then_out es m : wf_arrivals (arrivals es) -> In m ms ->
    count (arrivals es) (m_id m) = nf m -> In m (g_out (grun (es ++ [Assemble]))).
  Proof.
    intros Hwf Hm Hc. pose proof (inv_run es Hwf) as I. rewrite grun_snoc. cbn [gstep g_out].
    pose proof (nf_pos m Hm) as Hp.
    destruct (inv_seen _ _ I m Hm ltac:(lia)) as [Hh|Hout].
    - unfold has_entry in Hh. apply in_map_iff in Hh. destruct Hh as [e [He HeS]].
      destruct (inv_entry _ _ I e HeS) as [mx [H1 [H2 [H3 [H4 [H5 H6]]]]]].
      assert (Emx : mx = m) by (apply same_id_same_msg; auto; congruence). rewrite Emx in *. clear Emx.
      apply in_or_app. right. apply in_map_iff. exists e. split; [exact H3|].
      apply filter_In. split; [exact HeS|]. apply complete_iff. lia.
    - apply in_or_app. left. exact Hout.
  Qed.

  (** flits of different messages never merge: every partially assembled entry
      belongs to exactly one message of the set, carries that message's metadata
      and has counted precisely the arrived flits of that message *)
  Lemma no_merge es e : wf_arrivals (arrivals es) -> In e (g_asm (grun es)) ->
    exists m, In m ms /\ e_id e = m_id m /\ e_meta e = m /\ e_req e = nf m /\
              e_arr e = count (arrivals es) (m_id m) /\ 1 <= e_arr e <= nf m.
  Proof.
    intros Hwf He. destruct (inv_entry _ _ (inv_run es Hwf) e He) as [m [H1 [H2 [H3 [H4 [H5 H6]]]]]].
    exists m. pose proof (count_le_nf (arrivals es) m Hwf H1). repeat split; auto. lia.
  Qed.

  (** the ghost log only grows *)
  Lemma out_grows s e : exists ext, g_out (gstep s e) = g_out s ++ ext.
  Proof. destruct e; cbn [gstep g_out]; [exists []; rewrite app_nil_r; reflexivity|eexists; reflexivity]. Qed.
End Reassembly.

(** * The middleware tick is a sequence of those events *)

Lemma fold_arrive l a o :
  fold_left gstep (map Arrive l) (mk_g a o) = mk_g (fold_left recv_flit l a) o.
Proof. revert a. induction l as [|f l IH]; intro a; cbn [map fold_left gstep g_asm g_out]; [reflexivity|apply IH]. Qed.

Lemma dec_free_names ports i : map fst (dec_free ports i) = map fst ports.
Proof.
  unfold dec_free. rewrite map_map.
  assert (G : forall k, map (fun x : nat * (N * nat) =>
              fst (if (fst x =? i)%nat then (fst (snd x), Nat.pred (snd (snd x))) else snd x))
              (combine (seq k (length ports)) ports) = map fst ports).
  { induction ports as [|p r IH]; intro k; cbn [length seq combine map]; [reflexivity|].
    rewrite IH. f_equal. cbn [fst snd]. destruct (k =? i)%nat; reflexivity. }
  apply G.
Qed.

Lemma find_port_name ports dst k i : find_port ports dst k = Some i ->
  (k <= i)%nat /\ nth_error (map fst ports) (i - k) = Some dst.
Proof.
  revert k. induction ports as [|[name fr] r IH]; intros k H; [discriminate|].
  cbn [find_port] in H. destruct (name =? dst)%N eqn:E.
  - inversion H; subst. apply N.eqb_eq in E. subst. rewrite Nat.sub_diag. cbn. split; [lia|reflexivity].
  - destruct (IH _ H) as [Hk Hn]. split; [lia|].
    replace (i - k)%nat with (S (i - S k)) by lia. cbn [map nth_error]. exact Hn.
Qed.

(** [tryDeliver] hands over a prefix of AssembledMsgs, each message to the device
    port that bears its destination name *)
Lemma try_deliver_spec done : forall ports rest ports' dl,
  try_deliver done ports = Some (rest, ports', dl) ->
  done = map snd dl ++ rest /\
  Forall (fun im => nth_error (map fst ports) (fst im) = Some (m_dst (snd im))) dl.
Proof.
  induction done as [|m r IH]; intros ports rest ports' dl H; cbn [try_deliver] in H.
  - inversion H; subst. split; [reflexivity|constructor].
  - destruct (find_port ports (m_dst m) 0) as [i|] eqn:Ef; [|discriminate].
    destruct (snd (nth i ports (0%N, O)) =? 0)%nat.
    + inversion H; subst. split; [reflexivity|constructor].
    + destruct (try_deliver r (dec_free ports i)) as [[[rest0 p0] dl0]|] eqn:Et; [|discriminate].
      inversion H; subst. destruct (IH _ _ _ _ Et) as [Hd Hf]. split.
      * cbn [map snd app]. f_equal. exact Hd.
      * constructor.
        -- cbn [fst snd]. destruct (find_port_name _ _ _ _ Ef) as [_ Hn]. rewrite Nat.sub_0_r in Hn. exact Hn.
        -- rewrite dec_free_names in Hf. exact Hf.
Qed.

Definition tick_events (sp : spec) (netq : list flit) : list ev :=
  Assemble :: map Arrive (firstn (Nat.min (s_nin sp) (length netq)) netq).

(** one Tick of the incoming middleware = deliver a prefix; Assemble; Arrive* *)
Lemma in_tick_refines sp st ports netq st' ports' netq' dl G D :
  in_tick sp st ports netq = Some (st', ports', netq', dl) ->
  G = D ++ i_done st ->
  let g' := fold_left gstep (tick_events sp netq) (mk_g (i_asm st) G) in
  g_asm g' = i_asm st' /\ g_out g' = (D ++ map snd dl) ++ i_done st' /\
  Forall (fun im => nth_error (map fst ports) (fst im) = Some (m_dst (snd im))) dl.
Proof.
  intros H HG. unfold in_tick in H.
  destruct (try_deliver (i_done st) ports) as [[[rest p0] dl0]|] eqn:Et; [|discriminate].
  destruct (try_deliver_spec _ _ _ _ _ Et) as [Hd Hf].
  unfold recv in H. cbn [i_asm i_done assemble] in H. inversion H; subst. clear H.
  cbn zeta. unfold tick_events. cbn [fold_left gstep g_asm g_out].
  rewrite fold_arrive. cbn [g_asm g_out i_asm i_done].
  split; [reflexivity|]. split; [|exact Hf].
  rewrite Hd. rewrite <- !app_assoc. reflexivity.
Qed.

(** any number of ticks in any environment (free slots of the device ports and
    arrivals at the network port are arbitrary at every tick); [names] are the
    device ports of the endpoint *)
Inductive reach (sp : spec) (names : list N) : in_state -> list (nat * meta) -> list ev -> Prop :=
| reach_init : reach sp names (mk_in [] []) [] []
| reach_tick st D es ports netq st' ports' netq' dl :
    reach sp names st D es ->
    map fst ports = names ->
    in_tick sp st ports netq = Some (st', ports', netq', dl) ->
    reach sp names st' (D ++ dl) (es ++ tick_events sp netq).

Lemma reach_ghost sp names st D es : reach sp names st D es ->
  g_asm (grun es) = i_asm st /\ g_out (grun es) = map snd D ++ i_done st.
Proof.
  induction 1 as [|st D es ports netq st' ports' netq' dl Hr IH Hn Ht].
  - cbn. split; reflexivity.
  - destruct IH as [Ha Ho]. unfold grun in *. rewrite fold_left_app.
    destruct (fold_left gstep es (mk_g [] [])) as [a o] eqn:E. cbn [g_asm g_out] in Ha, Ho. subst a.
    destruct (in_tick_refines sp st ports netq st' ports' netq' dl o (map snd D) Ht Ho) as [H1 [H2 _]].
    split; [exact H1|]. rewrite H2. rewrite map_app. reflexivity.
Qed.

Lemma reach_ports sp names st D es : reach sp names st D es ->
  forall im, In im D -> nth_error names (fst im) = Some (m_dst (snd im)).
Proof.
  induction 1 as [|st D es ports netq st' ports' netq' dl Hr IH Hn Ht]; intros im Hin; [destruct Hin|].
  apply in_app_or in Hin. destruct Hin as [Hin|Hin]; [apply IH; exact Hin|].
  destruct (in_tick_refines sp st ports netq st' ports' netq' dl _ [] Ht eq_refl) as [_ [_ Hf]].
  rewrite Forall_forall in Hf. rewrite <- Hn. apply Hf. exact Hin.
Qed.
