(** C31 — endpoints packetize and reassemble losslessly.  Property theorems only. *)
From Akita Require Import Lib.Base C31.Model C31.Proofs.
Local Open Scope Z_scope.

(** Flit count: for every positive byte count, every dyadic overhead and every
    flit size >= 1 the endpoint makes exactly ceil(encoded / flit) >= 1 flits,
    where encoded = bytes + ceil(bytes * overhead).  ([is_ceil_div a b q] is
    [(q-1)*b < a <= q*b].)  A message without traffic bytes makes one flit. *)
Theorem c31_count : forall sp b, 1 <= s_flit sp ->
  (0 < b ->
   exists n, num_flits sp b = Some n /\ 1 <= n /\
             is_ceil_div (encoded_bytes sp b) (s_flit sp) n /\
             encoded_bytes sp b = b + overhead_bytes sp b /\
             is_ceil_div (b * Z.of_N (s_ov_num sp)) (2 ^ Z.of_N (s_ov_exp sp)) (overhead_bytes sp b)) /\
  (b <= 0 -> num_flits sp b = Some 1).
Proof.
  intros sp b Hf. split.
  - intro Hb. destruct (num_flits_pos_bytes sp b Hf Hb) as [n [H1 [H2 H3]]].
    exists n. repeat split; auto; try apply H3. apply overhead_ceil. lia. apply overhead_ceil. lia.
  - apply num_flits_nonpos_bytes.
Qed.
Print Assumptions c31_count.

(** The flits of a message: exactly that many, numbered 0..n-1, every one
    carrying the message's metadata unchanged and the total count. *)
Theorem c31_packetize : forall sp m n, num_flits sp (m_bytes m) = Some n -> 0 <= n ->
  exists fs, msg_to_flits sp m = Some fs /\ Z.of_nat (length fs) = n /\
    forall i, (i < length fs)%nat ->
      nth_error fs i = Some (mk_flit (s_netport sp) (s_swdst sp) (Z.of_nat i) n m).
Proof. exact msg_to_flits_spec. Qed.
Print Assumptions c31_packetize.

(** The receiving endpoint after ANY number of ticks in ANY environment (device
    ports full or free, flits arriving at any rate), fed ANY interleaving /
    reordering of flits of messages with unique IDs in which no flit occurs twice:
    what the devices have received so far ([D]) ... *)
Section Receiver.
  Variables (ms : list meta) (nf : meta -> Z) (sp : spec) (names : list N).
  Hypothesis ids_unique : NoDup (map m_id ms).
  Hypothesis nf_pos : forall m, In m ms -> 1 <= nf m.

  (** ... contains only messages ALL of whose flits have arrived, with the sent metadata *)
  Theorem c31_deliver_only_complete : forall st D es,
    reach sp names st D es -> wf_arrivals ms nf (arrivals es) ->
    forall i m, In (i, m) D -> In m ms /\ count (arrivals es) (m_id m) = nf m.
  Proof.
    intros st D es Hr Hwf i m Hin. destruct (reach_ghost _ _ _ _ _ Hr) as [_ Ho].
    apply (out_only_complete ms nf ids_unique nf_pos es m Hwf).
    rewrite Ho. apply in_or_app. left. apply in_map_iff. exists (i, m). auto.
  Qed.

  (** ... contains every message at most once (also counting what is still
      waiting in AssembledMsgs) *)
  Theorem c31_once : forall st D es,
    reach sp names st D es -> wf_arrivals ms nf (arrivals es) ->
    NoDup (map m_id (map snd D ++ i_done st)).
  Proof.
    intros st D es Hr Hwf. destruct (reach_ghost _ _ _ _ _ Hr) as [_ Ho]. rewrite <- Ho.
    exact (out_once ms nf ids_unique nf_pos es Hwf).
  Qed.

  (** ... was handed to the device port named by the message's destination *)
  Theorem c31_right_port : forall st D es, reach sp names st D es ->
    forall i m, In (i, m) D -> nth_error names i = Some (m_dst m).
  Proof. intros st D es Hr i m Hin. exact (reach_ports _ _ _ _ _ Hr (i, m) Hin). Qed.

  (** Conversely a message all of whose flits have been received is moved to
      AssembledMsgs by the next tick (its assemble stage), from where tryDeliver
      hands it over as soon as its port has room. *)
  Theorem c31_complete_is_assembled : forall st D es ports netq st' ports' netq' dl m,
    reach sp names st D es -> map fst ports = names ->
    wf_arrivals ms nf (arrivals es) -> In m ms -> count (arrivals es) (m_id m) = nf m ->
    in_tick sp st ports netq = Some (st', ports', netq', dl) ->
    In m (map snd (D ++ dl) ++ i_done st').
  Proof.
    intros st D es ports netq st' ports' netq' dl m Hr Hn Hwf Hm Hc Ht.
    pose proof (reach_tick _ _ _ _ _ _ _ _ _ _ _ Hr Hn Ht) as Hr'.
    destruct (reach_ghost _ _ _ _ _ Hr') as [_ Ho]. rewrite <- Ho.
    unfold tick_events. cbn [app]. unfold grun. rewrite fold_left_app.
    change (fold_left gstep es (mk_g [] [])) with (grun es).
    cbn [fold_left]. rewrite <- grun_snoc.
    pose proof (complete_then_out ms nf ids_unique nf_pos es m Hwf Hm Hc) as Hin.
    destruct (grun (es ++ [Assemble])) as [a o] eqn:E. rewrite fold_arrive. exact Hin.
  Qed.

  (** Flits of different messages never merge: every partially assembled entry
      belongs to one message of the set, keeps that message's metadata and flit
      count, and has counted exactly the arrived flits of that message. *)
  Theorem c31_no_merge : forall st D es,
    reach sp names st D es -> wf_arrivals ms nf (arrivals es) ->
    forall e, In e (i_asm st) ->
    exists m, In m ms /\ e_id e = m_id m /\ e_meta e = m /\ e_req e = nf m /\
              e_arr e = count (arrivals es) (m_id m) /\ 1 <= e_arr e <= nf m.
  Proof.
    intros st D es Hr Hwf e He. destruct (reach_ghost _ _ _ _ _ Hr) as [Ha _].
    apply (no_merge ms nf ids_unique nf_pos es e Hwf). rewrite Ha. exact He.
  Qed.
End Receiver.
Print Assumptions c31_deliver_only_complete.
Print Assumptions c31_once.
Print Assumptions c31_right_port.
Print Assumptions c31_complete_is_assembled.
Print Assumptions c31_no_merge.

(** Non-vacuity: two messages (3 and 2 flits), flits interleaved and reordered;
    after the arrivals and one assemble pass both are out, once, intact. *)
Example c31_nonvacuous :
  let sp := mk_spec 32 1 2 1 1 10 11 in
  let m1 := mk_meta 7 1 2 0 3 64 in
  let m2 := mk_meta 8 1 2 7 4 33 in
  num_flits sp 64 = Some 3 /\ num_flits sp 33 = Some 2 /\ num_flits sp 0 = Some 1 /\
  let f a i n := mk_flit 10 11 i n a in
  let A := [f m1 2 3; f m2 1 2; f m1 0 3; f m2 0 2; f m1 1 3] in
  NoDup (map m_id [m1; m2]) /\
  wf_arrivals [m1; m2] (fun m => if (m_id m =? 7)%N then 3 else 2) A /\
  g_out (grun (map Arrive A ++ [Assemble])) = [m1; m2] /\
  g_out (grun (map Arrive (firstn 4 A) ++ [Assemble])) = [m2].
Proof.
  cbv zeta. split; [vm_compute; reflexivity|]. split; [vm_compute; reflexivity|].
  split; [vm_compute; reflexivity|]. split.
  { repeat constructor; cbn; intuition discriminate. }
  split.
  { split.
    - apply Forall_forall. intros f Hf. cbn [In] in Hf.
      repeat (destruct Hf as [<-|Hf]); try (destruct Hf);
        (split; [cbn; tauto|split; [reflexivity|cbn; lia]]).
    - cbn. repeat constructor; cbn; intuition congruence. }
  split; vm_compute; reflexivity.
Qed.
