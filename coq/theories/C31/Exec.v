(** C31 — case evaluators: two REAL endpoints, A (sender) and B (receiver).
    The harness pushes the messages into A's device ports, ticks A and drains its
    network port according to a script, then feeds the captured flits to B's
    network port in a scripted (permuted, possibly incomplete) order and drains
    B's device ports according to a script. *)
From Akita Require Import Lib.Base C31.Model.

(** compact numeric encodings used by the harness: a signed number is zig-zag
    encoded ([2z] / [-2z-1]) *)
Definition unzz (n : N) : Z := if N.even n then Z.of_N (n / 2) else (- Z.of_N (n / 2) - 1)%Z.

Definition M (id src dst rspto cls bytes : N) : meta := mk_meta id src dst rspto cls (unzz bytes).
Definition F (src dst seq num : N) (m : meta) : flit := mk_flit src dst (unzz seq) (unzz num) m.

Record case := mk_case {
  c_flit : N;                     (* zig-zag FlitByteSize *)
  c_ov_num : N; c_ov_exp : N;
  c_nin : N; c_nout : N;
  c_a_net : N; c_a_sw : N;        (* A's network port / default switch destination (interned names) *)
  c_msgs : list (N * meta);       (* (A device port index, message) in push order *)
  c_a_ports : N;                  (* number of device ports of A *)
  c_a_netcap : N;                 (* capacity of A's network-port outgoing buffer *)
  c_drain : list N;               (* flits the network takes from A after every tick (cycled) *)
  c_b_ports : list (N * N);       (* B device ports: (interned name, incoming capacity) *)
  c_b_netcap : N;
  c_perm : list N;                (* indices into A's emitted flits: the order fed to B *)
  c_feed : list N;                (* flits offered to B before every tick (cycled) *)
  c_pull : list (list N);         (* per B device port: messages the device takes from it after every tick (cycled); ports stall and drain independently *)
  o_a : option (list (list flit));            (* flits taken from A after each tick; None = A panicked *)
  o_b : option (list (N * list (N * meta)));  (* per B tick: flits actually fed before it, (port, meta) taken after it *)
}.

Definition spec_of (c : case) : spec :=
  mk_spec (unzz (c_flit c)) (c_ov_num c) (c_ov_exp c) (N.to_nat (c_nin c)) (N.to_nat (c_nout c))
          (c_a_net c) (c_a_sw c).

(** ** equality *)
Definition meta_eqb (a b : meta) : bool :=
  (m_id a =? m_id b)%N && (m_src a =? m_src b)%N && (m_dst a =? m_dst b)%N &&
  (m_rspto a =? m_rspto b)%N && (m_class a =? m_class b)%N && (m_bytes a =? m_bytes b)%Z.

Definition flit_eqb (a b : flit) : bool :=
  (f_src a =? f_src b)%N && (f_dst a =? f_dst b)%N && (f_seq a =? f_seq b)%Z &&
  (f_num a =? f_num b)%Z && meta_eqb (f_msg a) (f_msg b).

Definition nth_cyc (l : list N) (t : nat) : nat :=
  match l with [] => 0 | _ => N.to_nat (nth (t mod length l) l 0%N) end.

(** ** the scripted environment around A *)
Definition dev_queues (nports : nat) (msgs : list (N * meta)) : list (list meta) :=
  map (fun p => map snd (filter (fun pm => (N.to_nat (fst pm) =? p)) msgs)) (seq 0 nports).

Definition all_nil {A} (l : list (list A)) : bool :=
  forallb (fun q => match q with [] => true | _ => false end) l.

Definition a_idle (st : out_state) (devq : list (list meta)) (netbuf : list flit) : bool :=
  match o_msgs st, o_flits st, netbuf with
  | [], [], [] => all_nil devq
  | _, _, _ => false
  end.

(** ticks until nothing is left anywhere (or the tick budget is used up) *)
Fixpoint run_a (fuel : nat) (sp : spec) (cap : nat) (drain : list N) (t : nat)
  (st : out_state) (devq : list (list meta)) (netbuf : list flit) : option (list (list flit)) :=
  match fuel with
  | O => Some []
  | S f =>
      if a_idle st devq netbuf then Some []
      else match out_tick sp (cap - length netbuf) st devq with
           | None => None
           | Some (st', devq', sent) =>
               let buf := netbuf ++ sent in
               let k := Nat.min (nth_cyc drain t) (length buf) in
               match run_a f sp cap drain (S t) st' devq' (skipn k buf) with
               | Some r => Some (firstn k buf :: r)
               | None => None
               end
           end
  end.

Definition tick_budget : nat := 600.

Definition model_a (c : case) : option (list (list flit)) :=
  run_a tick_budget (spec_of c) (N.to_nat (c_a_netcap c)) (c_drain c) 0 (mk_out [] [])
        (dev_queues (N.to_nat (c_a_ports c)) (c_msgs c)) [].

(** ** the scripted environment around B *)
Definition b_idle (st : in_state) (devq : list (list meta)) (netq pending : list flit) : bool :=
  match pending, netq, i_done st with
  | [], [], [] => all_nil devq && negb (existsb complete (i_asm st))
  | _, _, _ => false
  end.

Definition push_all (devq : list (list meta)) (dl : list (nat * meta)) : list (list meta) :=
  fold_left (fun q im => map (fun iq => if (fst iq =? fst im) then snd iq ++ [snd im] else snd iq)
                             (combine (seq 0 (length q)) q)) dl devq.

Fixpoint run_b (fuel : nat) (sp : spec) (ports : list (N * N)) (netcap : nat) (feed : list N) (pull : list (list N)) (t : nat)
  (st : in_state) (devq : list (list meta)) (netq pending : list flit)
  : option (list (N * list (N * meta))) :=
  match fuel with
  | O => Some []
  | S f =>
      if b_idle st devq netq pending then Some []
      else
        let k := Nat.min (Nat.min (nth_cyc feed t) (netcap - length netq)) (length pending) in
        let netq1 := netq ++ firstn k pending in
        let free := map (fun pq => (fst (fst pq), N.to_nat (snd (fst pq)) - length (snd pq))) (combine ports devq) in
        match in_tick sp st free netq1 with
        | None => None
        | Some (st', _, netq2, dl) =>
            let devq1 := push_all devq dl in
            let take := fun i => nth_cyc (nth i pull []) t in
            let taken := concat (map (fun iq => map (fun m => (N.of_nat (fst iq), m)) (firstn (take (fst iq)) (snd iq)))
                                     (combine (seq 0 (length devq1)) devq1)) in
            match run_b f sp ports netcap feed pull (S t) st'
                        (map (fun iq => skipn (take (fst iq)) (snd iq)) (combine (seq 0 (length devq1)) devq1))
                        netq2 (skipn k pending) with
            | Some r => Some ((N.of_nat k, taken) :: r)
            | None => None
            end
        end
  end.

Definition pick (fl : list flit) (perm : list N) : list flit :=
  concat (map (fun i => match nth_error fl (N.to_nat i) with Some f => [f] | None => [] end) perm).

Definition model_b (c : case) (emitted : list flit) : option (list (N * list (N * meta))) :=
  run_b tick_budget (spec_of c) (c_b_ports c) (N.to_nat (c_b_netcap c)) (c_feed c) (c_pull c) 0
        (mk_in [] []) (map (fun _ => []) (c_b_ports c)) [] (pick emitted (c_perm c)).

Definition tick_b_eqb (a b : N * list (N * meta)) : bool :=
  (fst a =? fst b)%N &&
  list_eqb (fun x y => (fst x =? fst y)%N && meta_eqb (snd x) (snd y)) (snd a) (snd b).

(** model output = implementation output (B's model is fed the flits that the
    REAL endpoint A emitted, so the two ties are independent) *)
Definition check_case (c : case) : bool :=
  opt_eqb (list_eqb (list_eqb flit_eqb)) (model_a c) (o_a c) &&
  match o_a c with
  | Some ticks => opt_eqb (list_eqb tick_b_eqb) (model_b c (concat ticks)) (o_b c)
  | None => match o_b c with None => true | Some _ => false end
  end.

(** ** the property on the observed behaviour *)
Local Open Scope Z_scope.

Definition cdiv (a b : Z) : Z := (a + b - 1) / b.

(** flit count the statement requires: ceil(encoded/flit), at least one *)
Definition required_flits (c : case) (m : meta) : Z :=
  if 0 <? m_bytes m then
    let enc := m_bytes m + cdiv (m_bytes m * Z.of_N (c_ov_num c)) (2 ^ Z.of_N (c_ov_exp c)) in
    Z.max 1 (cdiv enc (unzz (c_flit c)))
  else 1.

Definition ids_distinct (ms : list meta) : bool :=
  (fix go (l : list meta) : bool :=
     match l with
     | [] => true
     | m :: r => negb (existsb (fun m' => (m_id m =? m_id m')%N) r) && go r
     end) ms.

Definition flits_of (id : N) (fl : list flit) : list flit :=
  filter (fun f => (m_id (f_msg f) =? id)%N) fl.

(** A split message [m] into exactly the required flits, numbered 0..n-1, each
    carrying the untouched metadata *)
Definition packetized_ok (c : case) (emitted : list flit) (m : meta) : bool :=
  let n := required_flits c m in
  list_eqb flit_eqb (flits_of (m_id m) emitted)
    (map (fun i => mk_flit (c_a_net c) (c_a_sw c) (Z.of_nat i) n m) (seq 0 (Z.to_nat n))).

Fixpoint sum_fed (ticks : list (N * list (N * meta))) (upto : nat) : nat :=
  match ticks, upto with
  | [], _ => O
  | t :: r, O => N.to_nat (fst t)
  | t :: r, S u => (N.to_nat (fst t) + sum_fed r u)%nat
  end.

(** tick index at which message [id] was taken by a device (first occurrence) *)
Fixpoint delivery_tick (ticks : list (N * list (N * meta))) (id : N) (t : nat) : option nat :=
  match ticks with
  | [] => None
  | x :: r => if existsb (fun pm => (m_id (snd pm) =? id)%N) (snd x) then Some t else delivery_tick r id (S t)
  end.

Definition count_delivered (ticks : list (N * list (N * meta))) (id : N) : nat :=
  length (filter (fun pm => (m_id (snd pm) =? id)%N) (concat (map snd ticks))).

Definition delivery_ok (c : case) (fed_order : list flit) (ticks : list (N * list (N * meta)))
  (finished : bool) (m : meta) : bool :=
  let n := Z.to_nat (required_flits c m) in
  let total := length (flits_of (m_id m) fed_order) in
  match delivery_tick ticks (m_id m) 0 with
  | Some t =>
      (* exactly once, and only after every flit had arrived *)
      (count_delivered ticks (m_id m) =? 1)%nat &&
      (length (flits_of (m_id m) (firstn (sum_fed ticks t) fed_order)) =? n)%nat
  | None =>
      (* never delivered: acceptable only if some flit never arrived (or the run was cut short) *)
      negb finished || (total <? n)%nat
  end.

(** everything a device received is one of the sent messages, unchanged, at the
    port it was addressed to *)
Definition received_ok (c : case) (pm : N * meta) : bool :=
  existsb (fun xm => meta_eqb (snd xm) (snd pm)) (c_msgs c) &&
  match nth_error (c_b_ports c) (N.to_nat (fst pm)) with
  | Some (name, _) => (name =? m_dst (snd pm))%N
  | None => false
  end.

Fixpoint nodup_n (l : list N) : bool :=
  match l with [] => true | x :: r => negb (existsb (N.eqb x) r) && nodup_n r end.

(** the statement is about well-configured endpoints and unique message IDs *)
Definition in_domain (c : case) : bool :=
  (1 <=? unzz (c_flit c)) && ids_distinct (map snd (c_msgs c)) && nodup_n (c_perm c) &&
  forallb (fun xm => existsb (fun p => (fst p =? m_dst (snd xm))%N) (c_b_ports c)) (c_msgs c).

Definition holds_on (c : case) : bool :=
  if in_domain c then
    match o_a c, o_b c with
    | Some ta, Some tb =>
        let emitted := concat ta in
        let fed_order := pick emitted (c_perm c) in
        let a_finished := (length ta <? tick_budget)%nat in
        let b_finished := (length tb <? tick_budget)%nat in
        (negb a_finished || forallb (fun xm => packetized_ok c emitted (snd xm)) (c_msgs c)) &&
        forallb (received_ok c) (concat (map snd tb)) &&
        (negb a_finished ||
         forallb (fun xm => delivery_ok c fed_order tb b_finished (snd xm)) (c_msgs c))
    | _, _ => false        (* a well-configured endpoint must not panic *)
    end
  else true.
